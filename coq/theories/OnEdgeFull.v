(** * Every sub-segment lies on an input edge of its own operand — without the restriction of
    [OnEdge] (operands may share boundary pieces): exact instance, every input with finite
    coordinates.

    The overlap arm of [possible_intersection] divides at the points of existing events, chosen
    by the event order; that this point lies strictly inside the divided sub-segment needs the
    orientation of the pairs.  The invariant [einv2] therefore adds to [OnEdge.pair_ok]: partners
    carry opposite left flags and the left event's point is lexicographically smaller — which at
    the exact instance also excludes the "rounding swap" of [divide_segment], so that left flags
    never change and the status line only ever holds left events ([keys_left]). *)
From Coq Require Import Bool List PArith NArith QArith Lqa Lia.
From GB Require Import Prim Num NumQ NumLaws NumLawsQ Event Intersect Cmp Heap Outcome Divide Fields FillQueue
  Subdivide IntersectProofs FieldsProofs SplayKeys LinkProofs PiProofs SplitCover OnEdge.
From GB Require Splay.
Import ListNotations.
Local Open Scope Q_scope.

(** ** the lexicographic order of points and the event order *)
Definition lexlt (px py qx qy : Q) : Prop := px < qx \/ (px == qx /\ py < qy).

Lemma lexlt_irrefl a b c d : qeqp a b c d -> ~ lexlt a b c d.
Proof. intros [H1 H2] [K|[K1 K2]]; lra. Qed.
Lemma lexlt_trans a b c d e f : lexlt a b c d -> lexlt c d e f -> lexlt a b e f.
Proof. unfold lexlt. intros [H|[H1 H2]] [K|[K1 K2]]; [left; lra | left; lra | left; lra | right; split; lra]. Qed.
Lemma lexlt_total a b c d : ~ qeqp a b c d -> lexlt a b c d \/ lexlt c d a b.
Proof.
  unfold qeqp, lexlt. intros H.
  destruct (Q_dec a c) as [[K|K]|K]; [left; left; exact K | right; left; exact K|].
  destruct (Q_dec b d) as [[K'|K']|K']; [left; right; split; assumption | right; right; split; [symmetry|]; assumption|].
  exfalso. apply H. split; assumption.
Qed.
Lemma lexlt_asym a b c d : lexlt a b c d -> ~ lexlt c d a b.
Proof. unfold lexlt. intros [H|[H1 H2]] [K|[K1 K2]]; lra. Qed.
Lemma lexlt_eqv a b c d a' b' c' d' :
  a == a' -> b == b' -> c == c' -> d == d' -> lexlt a b c d -> lexlt a' b' c' d'.
Proof. unfold lexlt. intros E1 E2 E3 E4 [H|[H1 H2]]; [left | right; split]; lra. Qed.

Section EvOrder.
Variable st : store NQ.
Variables i j : eid.
Variables ax ay bx by_ : Q.
Hypothesis Pi : e_point (getE st i) = fpt ax ay.
Hypothesis Pj : e_point (getE st j) = fpt bx by_.

(** the order of two events at distinct finite points is the lexicographic order of the points *)
Lemma cmp_events_lex_gt : lexlt ax ay bx by_ -> cmp_events st i j = Gt.
Proof.
  intros H. unfold cmp_events, gtX, gtY. rewrite Pi, Pj. cbn [px py fpt NQ ltX ltY].
  destruct H as [H|[H1 H2]].
  - rewrite (proj2 (qx_lt_FF_false bx ax)) by lra. rewrite (proj2 (qx_lt_FF ax bx)) by lra. reflexivity.
  - rewrite (proj2 (qx_lt_FF_false bx ax)) by lra. rewrite (proj2 (qx_lt_FF_false ax bx)) by lra.
    rewrite (proj2 (qx_lt_FF_false by_ ay)) by lra. rewrite (proj2 (qx_lt_FF ay by_)) by lra. reflexivity.
Qed.
Lemma cmp_events_lex_lt : lexlt bx by_ ax ay -> cmp_events st i j = Lt.
Proof.
  intros H. unfold cmp_events, gtX, gtY. rewrite Pi, Pj. cbn [px py fpt NQ ltX ltY].
  destruct H as [H|[H1 H2]].
  - rewrite (proj2 (qx_lt_FF bx ax)) by lra. reflexivity.
  - rewrite (proj2 (qx_lt_FF_false bx ax)) by lra. rewrite (proj2 (qx_lt_FF_false ax bx)) by lra.
    rewrite (proj2 (qx_lt_FF by_ ay)) by lra. reflexivity.
Qed.

Lemma ev_lt_lex : ~ qeqp ax ay bx by_ -> (ev_lt st i j = true <-> lexlt bx by_ ax ay).
Proof.
  intros Hd. unfold ev_lt. split.
  - intros H. destruct (lexlt_total _ _ _ _ Hd) as [K|K]; [|exact K].
    rewrite (cmp_events_lex_gt K) in H. discriminate.
  - intros K. now rewrite (cmp_events_lex_lt K).
Qed.
Lemma ev_lt_lex_false : ~ qeqp ax ay bx by_ -> (ev_lt st i j = false <-> lexlt ax ay bx by_).
Proof.
  intros Hd. unfold ev_lt. split.
  - intros H. destruct (lexlt_total _ _ _ _ Hd) as [K|K]; [exact K|].
    rewrite (cmp_events_lex_lt K) in H. discriminate.
  - intros K. now rewrite (cmp_events_lex_gt K).
Qed.
Lemma is_before_lex' : lexlt ax ay bx by_ -> is_before st i j = true.
Proof. intros K. unfold is_before, ev_gt. now rewrite (cmp_events_lex_gt K). Qed.
End EvOrder.

(** ** points of an oriented segment: parameter order = lexicographic order *)
Definition at_ (ax ay bx by_ t : Q) : Q * Q := (ax + t * (bx - ax), ay + t * (by_ - ay)).

Lemma lex_param ax ay bx by_ u v :
  lexlt ax ay bx by_ -> u < v ->
  lexlt (fst (at_ ax ay bx by_ u)) (snd (at_ ax ay bx by_ u)) (fst (at_ ax ay bx by_ v)) (snd (at_ ax ay bx by_ v)).
Proof.
  unfold lexlt, at_. cbn [fst snd]. intros [H|[H1 H2]] Huv.
  - left. nra.
  - right. split; [rewrite H1; ring | nra].
Qed.
Lemma lex_param_inv ax ay bx by_ u v :
  lexlt ax ay bx by_ ->
  lexlt (fst (at_ ax ay bx by_ u)) (snd (at_ ax ay bx by_ u)) (fst (at_ ax ay bx by_ v)) (snd (at_ ax ay bx by_ v)) ->
  u < v.
Proof.
  intros Hab H. destruct (Q_dec u v) as [[K|K]|K]; [exact K| |].
  - exfalso. apply (lexlt_asym _ _ _ _ H). now apply lex_param.
  - exfalso. refine (lexlt_irrefl _ _ _ _ _ H). unfold qeqp, at_. cbn [fst snd]. split; rewrite K; reflexivity.
Qed.

(** a point with parameter strictly between those of two others lies strictly inside *)
Lemma inside_of_params ax ay bx by_ u v w :
  ~ qeqp ax ay bx by_ -> u < w < v ->
  strictly_inside (fst (at_ ax ay bx by_ u)) (snd (at_ ax ay bx by_ u))
                  (fst (at_ ax ay bx by_ v)) (snd (at_ ax ay bx by_ v))
                  (fst (at_ ax ay bx by_ w)) (snd (at_ ax ay bx by_ w)).
Proof.
  intros Hd Hw. unfold at_. cbn [fst snd].
  assert (Huv : ~ v - u == 0) by lra.
  split; [|split].
  - exists ((w - u) / (v - u)). split.
    + split; [apply Qle_shift_div_l; lra | apply Qle_shift_div_r; lra].
    + split; field; exact Huv.
  - intros [K1 K2]. apply Hd. split.
    + assert (E : (w - u) * (bx - ax) == 0) by lra. destruct (Qmult_integral _ _ E); lra.
    + assert (E : (w - u) * (by_ - ay) == 0) by lra. destruct (Qmult_integral _ _ E); lra.
  - intros [K1 K2]. apply Hd. split.
    + assert (E : (w - v) * (bx - ax) == 0) by lra. destruct (Qmult_integral _ _ E); lra.
    + assert (E : (w - v) * (by_ - ay) == 0) by lra. destruct (Qmult_integral _ _ E); lra.
Qed.

Lemma strictly_inside_eqv lx ly rx ry ix iy lx' ly' rx' ry' ix' iy' :
  lx == lx' -> ly == ly' -> rx == rx' -> ry == ry' -> ix == ix' -> iy == iy' ->
  strictly_inside lx ly rx ry ix iy -> strictly_inside lx' ly' rx' ry' ix' iy'.
Proof.
  intros E1 E2 E3 E4 E5 E6 (H1 & H2 & H3). split; [|split].
  - eapply on_seg_eqv; eauto.
  - intros [K1 K2]. apply H2. split; lra.
  - intros [K1 K2]. apply H3. split; lra.
Qed.

(** strictly inside an oriented segment = strictly between its ends in the lexicographic order *)
Lemma strictly_inside_lex lx ly rx ry ix iy :
  lexlt lx ly rx ry -> strictly_inside lx ly rx ry ix iy -> lexlt lx ly ix iy /\ lexlt ix iy rx ry.
Proof.
  intros Hlr ((t & Ht & Hx & Hy) & Hn1 & Hn2).
  assert (T0 : ~ t == 0).
  { intros K. apply Hn1. split; [rewrite Hx, K | rewrite Hy, K]; ring. }
  assert (T1 : ~ t == 1).
  { intros K. apply Hn2. split; [rewrite Hx, K | rewrite Hy, K]; ring. }
  assert (A0 : lexlt (fst (at_ lx ly rx ry 0)) (snd (at_ lx ly rx ry 0)) (fst (at_ lx ly rx ry t)) (snd (at_ lx ly rx ry t)))
    by (apply lex_param; [exact Hlr | lra]).
  assert (A1 : lexlt (fst (at_ lx ly rx ry t)) (snd (at_ lx ly rx ry t)) (fst (at_ lx ly rx ry 1)) (snd (at_ lx ly rx ry 1)))
    by (apply lex_param; [exact Hlr | lra]).
  unfold at_ in A0, A1. cbn [fst snd] in A0, A1. split.
  - eapply lexlt_eqv; [| | | | exact A0]; try (rewrite ?Hx, ?Hy; ring).
  - eapply lexlt_eqv; [| | | | exact A1]; try (rewrite ?Hx, ?Hy; ring).
Qed.

(** ** collinear overlapping oriented segments, in the parameter of the first one *)
Lemma overlap_collinear a1x a1y a2x a2y b1x b1y b2x b2y p q :
  ~ qeqp a1x a1y a2x a2y ->
  intersection (fpt a1x a1y) (fpt a2x a2y) (fpt b1x b1y) (fpt b2x b2y) = LOverlap p q ->
  det a1x a1y a2x a2y b1x b1y b2x b2y == 0 /\ numT a1x a1y a2x a2y b1x b1y == 0.
Proof.
  intros Ha Hi.
  destruct (Qeq_dec (det a1x a1y a2x a2y b1x b1y b2x b2y) 0) as [Hdet|Hdet].
  - destruct (Qeq_dec (numT a1x a1y a2x a2y b1x b1y) 0) as [HT|HT]; [split; assumption|].
    destruct (impl_parallel_distinct Hdet HT) as [H _].
    apply intersection_none_of_impl in H. rewrite H in Hi. discriminate.
  - destruct (intersection_exact Hdet) as [[H _]|(x & y & H & _)]; rewrite H in Hi; discriminate.
Qed.

Lemma param_inj ax ay bx by_ s t :
  ~ qeqp ax ay bx by_ -> ax + s * (bx - ax) == ax + t * (bx - ax) -> ay + s * (by_ - ay) == ay + t * (by_ - ay) -> s == t.
Proof.
  intros Hd E1 E2.
  assert (K1 : (s - t) * (bx - ax) == 0) by lra. assert (K2 : (s - t) * (by_ - ay) == 0) by lra.
  destruct (Qmult_integral _ _ K1) as [K|K]; [lra|]. destruct (Qmult_integral _ _ K2) as [K'|K']; [lra|].
  exfalso. apply Hd. split; lra.
Qed.

Lemma overlap_params p1x p1y o1x o1y p2x p2y o2x o2y ia ib :
  lexlt p1x p1y o1x o1y -> lexlt p2x p2y o2x o2y ->
  intersection (fpt p1x p1y) (fpt o1x o1y) (fpt p2x p2y) (fpt o2x o2y) = LOverlap ia ib ->
  exists al be, al < be /\ al < 1 /\ 0 < be /\
    p2x == p1x + al * (o1x - p1x) /\ p2y == p1y + al * (o1y - p1y) /\
    o2x == p1x + be * (o1x - p1x) /\ o2y == p1y + be * (o1y - p1y).
Proof.
  intros L1 L2 Hi.
  assert (D1 : ~ qeqp p1x p1y o1x o1y) by (intros K; exact (lexlt_irrefl _ _ _ _ K L1)).
  assert (D2 : ~ qeqp p2x p2y o2x o2y) by (intros K; exact (lexlt_irrefl _ _ _ _ K L2)).
  destruct (overlap_collinear _ _ _ _ _ _ _ _ _ _ D1 Hi) as [Hdet HT].
  set (vx := o1x - p1x). set (vy := o1y - p1y).
  assert (Hl : ~ vx * vx + vy * vy == 0).
  { intros K. destruct (sum_sq_zero K) as [K1 K2]. apply D1. unfold vx, vy in *. split; lra. }
  (* p2 and o2 on the line of the first segment *)
  assert (C1 : (p2x - p1x) * vy - (p2y - p1y) * vx == 0).
  { unfold numT in HT. unfold vx, vy. rewrite <- HT. ring. }
  assert (C2 : (o2x - p1x) * vy - (o2y - p1y) * vx == 0).
  { unfold numT in HT. unfold det in Hdet. unfold vx, vy.
    assert (E : (o2x - p1x) * (o1y - p1y) - (o2y - p1y) * (o1x - p1x)
                == ((p2x - p1x) * (o1y - p1y) - (p2y - p1y) * (o1x - p1x))
                   - ((o1x - p1x) * (o2y - p2y) - (o1y - p1y) * (o2x - p2x))) by ring.
    rewrite E, HT, Hdet. ring. }
  destruct (proj_collinear Hl C1) as [A1 A2].
  destruct (proj_collinear Hl C2) as [B1 B2].
  set (al := (vx * (p2x - p1x) + vy * (p2y - p1y)) / (vx * vx + vy * vy)) in *.
  set (be := (vx * (o2x - p1x) + vy * (o2y - p1y)) / (vx * vx + vy * vy)) in *.
  assert (P2x : p2x == p1x + al * (o1x - p1x)) by (fold vx; lra).
  assert (P2y : p2y == p1y + al * (o1y - p1y)) by (fold vy; lra).
  assert (O2x : o2x == p1x + be * (o1x - p1x)) by (fold vx; lra).
  assert (O2y : o2y == p1y + be * (o1y - p1y)) by (fold vy; lra).
  assert (Hab : al < be).
  { apply (lex_param_inv p1x p1y o1x o1y al be L1). unfold at_. cbn [fst snd].
    eapply lexlt_eqv; [| | | | exact L2]; assumption. }
  exists al, be. split; [exact Hab|].
  (* two distinct common points *)
  destruct (overlap_two_points _ _ _ _ _ _ _ _ _ _ D1 D2 Hi) as (x & y & x' & y' & Cx & Cy & Hd).
  destruct Cx as (s & t & Hs & Ht & X1 & Y1 & X2 & Y2).
  destruct Cy as (s' & t' & Hs' & Ht' & X1' & Y1' & X2' & Y2').
  assert (Es : s == al + t * (be - al)).
  { apply (param_inj p1x p1y o1x o1y); [exact D1| |].
    - rewrite <- X1, X2, P2x, O2x. ring.
    - rewrite <- Y1, Y2, P2y, O2y. ring. }
  assert (Es' : s' == al + t' * (be - al)).
  { apply (param_inj p1x p1y o1x o1y); [exact D1| |].
    - rewrite <- X1', X2', P2x, O2x. ring.
    - rewrite <- Y1', Y2', P2y, O2y. ring. }
  assert (Hss : ~ s == s').
  { intros K. apply Hd. split; [rewrite X1, X1', K | rewrite Y1, Y1', K]; reflexivity. }
  assert (R1 : al <= s <= be) by nra.
  assert (R2 : al <= s' <= be) by nra.
  repeat split; try assumption.
  - destruct (Q_dec s s') as [[K|K]|K]; [lra | lra | contradiction].
  - destruct (Q_dec s s') as [[K|K]|K]; [lra | lra | contradiction].
Qed.

(** helpers: facts about points given by their parameters on an oriented segment [a b] *)
Section Params.
Variables ax ay bx by_ : Q.
Hypothesis Hab : lexlt ax ay bx by_.
Definition has_param (u x y : Q) : Prop := x == ax + u * (bx - ax) /\ y == ay + u * (by_ - ay).

Lemma Dab : ~ qeqp ax ay bx by_.
Proof. intros K. exact (lexlt_irrefl _ _ _ _ K Hab). Qed.

Lemma lexlt_params u v px py qx qy : has_param u px py -> has_param v qx qy -> (lexlt px py qx qy <-> u < v).
Proof.
  intros [P1 P2] [Q1 Q2]. split.
  - intros H. apply (lex_param_inv ax ay bx by_ u v Hab). unfold at_. cbn [fst snd].
    eapply lexlt_eqv; [| | | | exact H]; assumption.
  - intros H. pose proof (lex_param ax ay bx by_ u v Hab H) as K. unfold at_ in K. cbn [fst snd] in K.
    eapply lexlt_eqv; [| | | | exact K]; symmetry; assumption.
Qed.
Lemma qeqp_params u v px py qx qy : has_param u px py -> has_param v qx qy -> (qeqp px py qx qy <-> u == v).
Proof.
  intros [P1 P2] [Q1 Q2]. split.
  - intros [E1 E2]. apply (param_inj ax ay bx by_); [exact Dab | rewrite <- P1, <- Q1; exact E1 | rewrite <- P2, <- Q2; exact E2].
  - intros E. split; [rewrite P1, Q1, E | rewrite P2, Q2, E]; reflexivity.
Qed.
Lemma inside_by_params u v w lx ly rx ry ix iy :
  has_param u lx ly -> has_param v rx ry -> has_param w ix iy -> u < w < v -> strictly_inside lx ly rx ry ix iy.
Proof.
  intros [L1 L2] [R1 R2] [I1 I2] H.
  pose proof (inside_of_params ax ay bx by_ u v w Dab H) as K. unfold at_ in K. cbn [fst snd] in K.
  eapply strictly_inside_eqv; [| | | | | | exact K]; symmetry; assumption.
Qed.
End Params.

Section Full.
Variable edges : list edge.
Notation store := (store NQ).

(** [OnEdge.pair_ok] plus orientation *)
Definition pair_ok2 (st : store) (i o : eid) : Prop :=
  exists px py qx qy ax ay bx by_,
    e_point (getE st i) = fpt px py /\ e_point (getE st o) = fpt qx qy /\
    ~ qeqp px py qx qy /\
    In (ax, ay, (bx, by_), e_is_subject (getE st i)) edges /\
    on_seg ax ay bx by_ px py /\ on_seg ax ay bx by_ qx qy /\
    e_left (getE st o) = negb (e_left (getE st i)) /\
    (e_left (getE st i) = true -> lexlt px py qx qy).

Definition einv2 (st : store) : Prop :=
  forall i o, mapped NQ st i -> e_other (getE st i) = Some o -> pair_ok2 st i o.

Lemma einv2_einv st : einv2 st -> einv edges st.
Proof.
  intros E i o Mi Ho. destruct (E i o Mi Ho) as (px & py & qx & qy & ax & ay & bx & by_ & H1 & H2 & H3 & H4 & H5 & H6 & _).
  exists px, py, qx, qy, ax, ay, bx, by_. auto 10.
Qed.

Definition keeps_e2 (f : event NQ -> event NQ) : Prop :=
  forall e, e_point (f e) = e_point e /\ e_other (f e) = e_other e /\ e_is_subject (f e) = e_is_subject e
            /\ e_left (f e) = e_left e.

Lemma getE_upd_keeps_e2 (st : store) j f k : keeps_e2 f ->
  e_point (getE (upd st j f) k) = e_point (getE st k) /\
  e_other (getE (upd st j f) k) = e_other (getE st k) /\
  e_is_subject (getE (upd st j f) k) = e_is_subject (getE st k) /\
  e_left (getE (upd st j f) k) = e_left (getE st k).
Proof.
  intros K. destruct (Pos.eq_dec j k) as [->|Hn].
  - rewrite getE_upd_same. apply K.
  - rewrite getE_upd_other by exact Hn. auto.
Qed.

Lemma einv2_upd (st : store) j f : keeps_e2 f -> mapped NQ st j -> einv2 st -> einv2 (upd st j f).
Proof.
  intros K Mj E i o Mi Ho. apply (mapped_upd_in NQ st j f i Mj) in Mi.
  destruct (getE_upd_keeps_e2 st j f i K) as (A1 & A2 & A3 & A4).
  destruct (getE_upd_keeps_e2 st j f o K) as (B1 & B2 & B3 & B4).
  rewrite A2 in Ho. destruct (E i o Mi Ho) as (px & py & qx & qy & ax & ay & bx & by_ & H1 & H2 & H3 & H4 & H5 & H6 & H7 & H8).
  exists px, py, qx, qy, ax, ay, bx, by_. rewrite A1, B1, A3, A4, B4. auto 12.
Qed.

Lemma k2_set_prev o : keeps_e2 (fun e => set_prev_in_result e o). Proof. intros e; auto. Qed.
Lemma k2_set_edge_type t : keeps_e2 (fun e => set_edge_type e t). Proof. intros e; auto. Qed.
Lemma k2_set_in_out a b : keeps_e2 (fun e => set_in_out e a b). Proof. intros e; auto. Qed.
Lemma k2_set_rt r : keeps_e2 (fun e => set_result_transition e r). Proof. intros e; auto. Qed.

Lemma compute_fields_einv2 cfg (st : store) ev mp op : mapped NQ st ev -> einv2 st -> einv2 (compute_fields cfg st ev mp op).
Proof.
  intros M P. unfold compute_fields.
  apply einv2_upd; [apply k2_set_rt | |].
  - destruct mp as [prev|];
      repeat match goal with
             | |- context [if ?c then _ else _] => destruct c
             | |- context [match ?c with Some _ => _ | None => _ end] => destruct c
             end; rewrite ?mapped_upd; auto.
  - destruct mp as [prev|].
    + repeat match goal with
             | |- context [if ?c then _ else _] => destruct c
             | |- context [match ?c with Some _ => _ | None => _ end] => destruct c
             end;
        (apply einv2_upd; [apply k2_set_prev | rewrite ?mapped_upd; auto |]);
        (apply einv2_upd; [apply k2_set_in_out | exact M | exact P]).
    + apply einv2_upd; [apply k2_set_prev | rewrite ?mapped_upd; auto |].
      apply einv2_upd; [apply k2_set_in_out | exact M | exact P].
Qed.

(** left flags of all events: unchanged by the flag updates of [compute_fields] *)
Lemma compute_fields_left cfg (st : store) ev mp op k :
  e_left (getE (compute_fields cfg st ev mp op) k) = e_left (getE st k).
Proof.
  unfold compute_fields.
  assert (U : forall (sto : store) j f q, (forall e, e_left (f e) = e_left e) ->
            e_left (getE (upd sto j f) q) = e_left (getE sto q)).
  { intros sto j f q Hf. destruct (Pos.eq_dec j q) as [->|Hn].
    - rewrite getE_upd_same. apply Hf.
    - now rewrite getE_upd_other. }
  rewrite U by (intros; reflexivity).
  destruct mp as [prev|];
    repeat match goal with
           | |- context [if ?c then _ else _] => destruct c
           | |- context [match ?c with Some _ => _ | None => _ end] => destruct c
           end; rewrite !U by (intros; reflexivity); reflexivity.
Qed.

(** ** one division, oriented: no rounding swap, flags as allocated *)
Lemma divide_segment_flags cfg (s s' : sq NQ) (se_l se_r : eid) (rx ry ix iy : Q) :
  wf NQ (sq_st s) -> mapped NQ (sq_st s) se_l -> mapped NQ (sq_st s) se_r -> se_r <> se_l ->
  e_other (getE (sq_st s) se_l) = Some se_r ->
  e_point (getE (sq_st s) se_r) = fpt rx ry -> lexlt ix iy rx ry ->
  divide_segment cfg s se_l (fpt ix iy) = Ok s' ->
  forall r l, e_other (getE (sq_st s') se_l) = Some r -> e_other (getE (sq_st s') se_r) = Some l ->
    e_left (getE (sq_st s') r) = false /\ e_left (getE (sq_st s') l) = true /\
    forall k, mapped NQ (sq_st s) k -> e_left (getE (sq_st s') k) = e_left (getE (sq_st s) k).
Proof.
  intros W Ml Mr Hne Or Pr Hlex. unfold divide_segment.
  destruct (c_debug cfg && negb (e_left (getE (sq_st s) se_l))); [discriminate|].
  rewrite Or. rewrite bump_dead_exact.
  set (el := getE (sq_st s) se_l).
  destruct (alloc (sq_st s) (new_event (e_contour_id el) (fpt ix iy) false (Some se_l) (e_is_subject el) true)) as [st1 r0] eqn:E1.
  destruct (alloc st1 (new_event (e_contour_id el) (fpt ix iy) true (Some se_r) (e_is_subject el) true)) as [st2 l0] eqn:E2.
  assert (Hst1 : st1 = fst (alloc (sq_st s) (new_event (e_contour_id el) (fpt ix iy) false (Some se_l) (e_is_subject el) true))) by (rewrite E1; reflexivity).
  assert (Hr : r0 = st_next (sq_st s)) by (unfold alloc in E1; now inversion E1).
  assert (Hst2 : st2 = fst (alloc st1 (new_event (e_contour_id el) (fpt ix iy) true (Some se_r) (e_is_subject el) true))) by (rewrite E2; reflexivity).
  assert (Hl : l0 = st_next st1) by (unfold alloc in E2; now inversion E2).
  destruct (c_debug cfg && negb (is_before st2 se_l r0)); [discriminate|].
  assert (Hl' : l0 = Pos.succ r0) by (rewrite Hl, Hst1, next_alloc, Hr; reflexivity).
  assert (Nr : ~ mapped NQ (sq_st s) r0) by (rewrite Hr; apply fresh_unmapped; exact W).
  assert (Nl : ~ mapped NQ (sq_st s) l0).
  { intros M. pose proof (W _ M). rewrite Hl', Hr in H. lia. }
  assert (Hrl : r0 <> l0) by (rewrite Hl'; lia).
  assert (Dl_r : se_l <> r0) by (intros E; apply Nr; rewrite <- E; exact Ml).
  assert (Dl_l : se_l <> l0) by (intros E; apply Nl; rewrite <- E; exact Ml).
  assert (Dr_r : se_r <> r0) by (intros E; apply Nr; rewrite <- E; exact Mr).
  assert (Dr_l : se_r <> l0) by (intros E; apply Nl; rewrite <- E; exact Mr).
  assert (G2r : getE st2 r0 = new_event (e_contour_id el) (fpt ix iy) false (Some se_l) (e_is_subject el) true).
  { rewrite Hst2, getE_alloc_old by (rewrite <- Hl; exact Hrl). rewrite Hst1, Hr. apply getE_alloc_new. }
  assert (G2l : getE st2 l0 = new_event (e_contour_id el) (fpt ix iy) true (Some se_r) (e_is_subject el) true).
  { rewrite Hst2, Hl. apply getE_alloc_new. }
  assert (G2old : forall k, mapped NQ (sq_st s) k -> getE st2 k = getE (sq_st s) k).
  { intros k Mk. assert (K1 : k <> r0) by (intros ->; contradiction). assert (K2 : k <> l0) by (intros ->; contradiction).
    rewrite Hst2, getE_alloc_old by (rewrite <- Hl; exact K2). rewrite Hst1, getE_alloc_old by (rewrite <- Hr; exact K1). reflexivity. }
  (* no swap: the new left event lies before the old right end *)
  assert (NoSwap : is_before st2 l0 se_r = true).
  { apply (is_before_lex' st2 l0 se_r ix iy rx ry); [rewrite G2l; reflexivity | rewrite (G2old se_r Mr); exact Pr | exact Hlex]. }
  rewrite NoSwap. cbn [negb].
  intros H; inversion H; subst s'; clear H. cbn [sq_st].
  intros r l Hr' Hl''.
  rewrite getE_upd_other in Hr' by exact Hne. rewrite getE_upd_same in Hr'. cbn in Hr'. inversion Hr'; subst r.
  rewrite getE_upd_same in Hl''. cbn in Hl''. inversion Hl''; subst l.
  assert (U : forall (sto : store) j f q, (forall e, e_left (f e) = e_left e) ->
            e_left (getE (upd sto j f) q) = e_left (getE sto q)).
  { intros sto j f q Hf. destruct (Pos.eq_dec j q) as [->|Hn].
    - rewrite getE_upd_same. apply Hf.
    - now rewrite getE_upd_other. }
  rewrite !U by (intros; reflexivity). rewrite G2r, G2l. cbn. split; [reflexivity|]. split; [reflexivity|].
  intros k Mk. rewrite !U by (intros; reflexivity). now rewrite (G2old k Mk).
Qed.


Theorem divide_segment_einv2 cfg (s s' : sq NQ) (se_l se_r : eid) (lx ly rx ry ix iy : Q) :
  sqinv NQ s -> einv2 (sq_st s) -> mapped NQ (sq_st s) se_l ->
  e_other (getE (sq_st s) se_l) = Some se_r ->
  e_left (getE (sq_st s) se_l) = true ->
  e_point (getE (sq_st s) se_l) = fpt lx ly -> e_point (getE (sq_st s) se_r) = fpt rx ry ->
  strictly_inside lx ly rx ry ix iy ->
  divide_segment cfg s se_l (fpt ix iy) = Ok s' ->
  einv2 (sq_st s') /\
  (forall k, mapped NQ (sq_st s) k -> e_left (getE (sq_st s') k) = e_left (getE (sq_st s) k)) /\
  (forall l, e_other (getE (sq_st s') se_r) = Some l ->
     e_left (getE (sq_st s') l) = true /\ e_point (getE (sq_st s') l) = fpt ix iy /\
     e_other (getE (sq_st s') l) = Some se_r /\ ~ mapped NQ (sq_st s) l).
Proof.
  intros S E Ml Or Ll Pl Pr Hin Hd.
  pose proof S as [[W L] Q].
  destruct (L se_l Ml) as (o & Ho & Hne & Mr & Hback & Hsub & _).
  assert (Eo : o = se_r) by congruence. subst o.
  destruct (divide_segment_shape NQ cfg s s' se_l se_r (fpt ix iy) W Ml Mr Hne Or Hd)
    as (r & l & i' & Nr & Nl & Hrl & A1 & A2 & A3 & A4 & B1 & B2 & Ei & Keep & KeepO).
  rewrite bump_dead_exact in Ei. rewrite Ei in B1, B2. clear Ei i'.
  pose proof (divide_segment_keeps_subject cfg s s' se_l (fpt ix iy) W Hd) as KS.
  destruct (E se_l se_r Ml Or) as (px & py & qx & qy & ax & ay & bx & by_ & H1 & H2 & H3 & H4 & H5 & H6 & H7 & H8).
  rewrite Pl in H1. rewrite Pr in H2.
  apply fpt_inj in H1, H2. destruct H1 as [<- <-]. destruct H2 as [<- <-].
  rewrite Ll in H7. cbn [negb] in H7. specialize (H8 Ll).
  destruct (strictly_inside_lex _ _ _ _ _ _ H8 Hin) as [Lli Lir].
  destruct Hin as (Hon & Hnl & Hnr).
  assert (Hi : on_seg ax ay bx by_ ix iy) by (eapply on_seg_convex; [exact H5 | exact H6 | exact Hon]).
  destruct (divide_segment_flags cfg s s' se_l se_r rx ry ix iy W Ml Mr Hne Or Pr Lir Hd r l A1 A4) as (Fr & Fl & Fold).
  pose proof (divide_segment_inv NQ cfg s se_l (fpt ix iy) S Ml) as DI. rewrite Hd in DI. destruct DI as [[[W' L'] Q'] G'].
  assert (Tl : e_is_subject (getE (sq_st s') se_l) = e_is_subject (getE (sq_st s) se_l)) by (apply KS; exact Ml).
  assert (Tr : e_is_subject (getE (sq_st s') se_r) = e_is_subject (getE (sq_st s) se_l)).
  { rewrite (KS se_r Mr). exact Hsub. }
  split; [|split; [exact Fold|]].
  2: { intros l1 Hl1. rewrite A4 in Hl1. inversion Hl1; subst l1. auto. }
  intros k o Mk Hko.
  destruct (Pos.eq_dec k se_l) as [->|Kl]; [|destruct (Pos.eq_dec k se_r) as [->|Kr]].
  - rewrite A1 in Hko. inversion Hko; subst o.
    exists lx, ly, ix, iy, ax, ay, bx, by_. rewrite (Keep se_l Ml), Pl, B1, Tl, Fr, (Fold se_l Ml), Ll.
    repeat split; auto. intros [K1 K2]. apply Hnl. split; [rewrite K1 | rewrite K2]; reflexivity.
  - rewrite A4 in Hko. inversion Hko; subst o.
    exists rx, ry, ix, iy, ax, ay, bx, by_. rewrite (Keep se_r Mr), Pr, B2, Tr, Fl, (Fold se_r Mr), H7.
    repeat split; auto; try discriminate. intros [K1 K2]. apply Hnr. split; [rewrite K1 | rewrite K2]; reflexivity.
  - destruct (mapped_dec NQ (sq_st s) k) as [Mk0|Nk0].
    + rewrite (KeepO k Mk0 Kl Kr) in Hko.
      destruct (L k Mk0) as (o' & Ho' & _ & Mo' & _). assert (o' = o) by congruence. subst o'.
      destruct (E k o Mk0 Hko) as (px & py & qx & qy & cx & cy & dx & dy & G1 & G2 & G3 & G4 & G5 & G6 & G7 & G8).
      exists px, py, qx, qy, cx, cy, dx, dy. rewrite (Keep k Mk0), (Keep o Mo'), (KS k Mk0), (Fold k Mk0), (Fold o Mo'). auto 12.
    + destruct (L' k Mk) as (o' & Ho' & _ & _ & _ & Hs' & _). assert (o' = o) by congruence. subst o'.
      destruct (Pos.eq_dec k r) as [->|Kr'].
      * rewrite A2 in Hko. inversion Hko; subst o.
        exists ix, iy, lx, ly, ax, ay, bx, by_. rewrite B1, (Keep se_l Ml), Pl, <- Hs', Tl, Fr, (Fold se_l Ml), Ll.
        repeat split; auto; discriminate.
      * destruct (Pos.eq_dec k l) as [->|Kl'].
        -- rewrite A3 in Hko. inversion Hko; subst o.
           exists ix, iy, rx, ry, ax, ay, bx, by_. rewrite B2, (Keep se_r Mr), Pr, <- Hs', Tr, Fl, (Fold se_r Mr), H7.
           repeat split; auto.
        -- exfalso.
           assert (Hmo : forall o0, e_other (getE (sq_st s) se_l) = Some o0 -> mapped NQ (sq_st s) o0).
           { intros o0 K. assert (o0 = se_r) by congruence. subst. exact Mr. }
           pose proof (divide_segment_new_ids cfg s s' se_l (fpt ix iy) Hmo Hd) as NI.
           assert (Mr_ : mapped NQ (sq_st s') r).
           { destruct (mapped_dec NQ (sq_st s') r) as [K|K]; [exact K|].
             rewrite (getE_unmapped_other _ _ K) in A2. discriminate. }
           assert (Ml_ : mapped NQ (sq_st s') l).
           { destruct (mapped_dec NQ (sq_st s') l) as [K|K]; [exact K|].
             rewrite (getE_unmapped_other _ _ K) in A3. discriminate. }
           destruct (NI k Mk) as [K|K]; [contradiction|].
           destruct (NI r Mr_) as [K1|K1]; [contradiction|].
           destruct (NI l Ml_) as [K2|K2]; [contradiction|].
           destruct K as [K|K], K1 as [K1|K1], K2 as [K2|K2]; congruence.
Qed.


(** ** [possible_intersection], all arms *)
Definition pe2 (st0 : store) (r : outcome (sq NQ * nat)) : Prop :=
  match r with
  | Ok (s', _) => einv2 (sq_st s') /\ forall k, mapped NQ st0 k -> e_left (getE (sq_st s') k) = e_left (getE st0 k)
  | _ => True
  end.

(** one more division after some steps that preserved the left flags of the events of [st0] *)
Lemma pe2_step cfg (st0 : store) (s s' : sq NQ) (T Tr : eid) (lx ly rx ry ix iy : Q) :
  sqinv NQ s -> einv2 (sq_st s) ->
  (forall k, mapped NQ st0 k -> mapped NQ (sq_st s) k /\ e_left (getE (sq_st s) k) = e_left (getE st0 k)) ->
  mapped NQ (sq_st s) T -> e_other (getE (sq_st s) T) = Some Tr -> e_left (getE (sq_st s) T) = true ->
  e_point (getE (sq_st s) T) = fpt lx ly -> e_point (getE (sq_st s) Tr) = fpt rx ry ->
  strictly_inside lx ly rx ry ix iy ->
  divide_segment cfg s T (fpt ix iy) = Ok s' ->
  einv2 (sq_st s') /\ forall k, mapped NQ st0 k -> e_left (getE (sq_st s') k) = e_left (getE st0 k).
Proof.
  intros S E H0 MT OT LT PT PTr Hin Hd.
  destruct (divide_segment_einv2 cfg s s' T Tr lx ly rx ry ix iy S E MT OT LT PT PTr Hin Hd) as (E' & F' & _).
  split; [exact E'|]. intros k Mk. destruct (H0 k Mk) as [Mk' Fk]. rewrite (F' k Mk'). exact Fk.
Qed.

Theorem possible_intersection_pe2 cfg (s : sq NQ) (se1 se2 : eid) :
  sqinv NQ s -> einv2 (sq_st s) -> mapped NQ (sq_st s) se1 -> mapped NQ (sq_st s) se2 ->
  e_left (getE (sq_st s) se1) = true -> e_left (getE (sq_st s) se2) = true ->
  pe2 (sq_st s) (possible_intersection cfg s se1 se2).
Proof.
  intros S E M1 M2 Lf1 Lf2. pose proof S as [[W L] Q].
  assert (Same : forall k, mapped NQ (sq_st s) k -> mapped NQ (sq_st s) k /\ e_left (getE (sq_st s) k) = e_left (getE (sq_st s) k))
    by (intros k Mk; split; [exact Mk | reflexivity]).
  assert (Good0 : pe2 (sq_st s) (Ok (s, 0%nat))) by (cbn; split; [exact E | reflexivity]).
  unfold possible_intersection.
  destruct (L se1 M1) as (other1 & O1 & Hne1 & Mo1 & Back1 & _).
  destruct (L se2 M2) as (other2 & O2 & Hne2 & Mo2 & Back2 & _).
  rewrite O1, O2.
  destruct (E se1 other1 M1 O1) as (p1x & p1y & o1x & o1y & a1x & a1y & b1x & b1y & P1 & Q1 & D1 & I1 & S1a & S1b & F1 & Lx1).
  destruct (E se2 other2 M2 O2) as (p2x & p2y & o2x & o2y & a2x & a2y & b2x & b2y & P2 & Q2 & D2 & I2 & S2a & S2b & F2 & Lx2).
  rewrite Lf1 in F1. rewrite Lf2 in F2. cbn [negb] in F1, F2. specialize (Lx1 Lf1). specialize (Lx2 Lf2).
  assert (N2o : se2 <> other1) by (intros K; rewrite K in Lf2; congruence).
  assert (N1o : se1 <> other2) by (intros K; rewrite K in Lf1; congruence).
  unfold point_of. rewrite P1, Q1, P2, Q2.
  assert (Hne : ~ (o1x == p1x /\ o1y == p1y)) by (intros [K1 K2]; apply D1; split; symmetry; assumption).
  pose proof (@intersection_exact_all p1x p1y o1x o1y p2x p2y o2x o2y Hne) as EX.
  destruct (intersection (fpt p1x p1y) (fpt o1x o1y) (fpt p2x p2y) (fpt o2x o2y)) as [|inter|ia ib] eqn:EI.
  - exact Good0.
  - (* one common point *)
    cbn [exact_result] in EX. destruct EX as (x & y & -> & Hon).
    destruct (on_both_seg1 _ _ _ _ _ _ _ _ _ _ Hon) as [On1 On2].
    destruct (pt_eq (fpt p1x p1y) (fpt p2x p2y) || pt_eq (fpt o1x o1y) (fpt o2x o2y)) eqn:Eends; [exact Good0|].
    apply orb_false_iff in Eends. destruct Eends as [Ep Eo].
    assert (N21 : se2 <> se1).
    { intros K. rewrite K in P2. rewrite P1 in P2. apply fpt_inj in P2. destruct P2 as [<- <-].
      apply pt_eq_fpt_false in Ep. apply Ep. split; reflexivity. }
    set (c1 := negb (pt_eq (fpt p1x p1y) (fpt x y)) && negb (pt_eq (fpt o1x o1y) (fpt x y))).
    set (c2 := negb (pt_eq (fpt p2x p2y) (fpt x y)) && negb (pt_eq (fpt o2x o2y) (fpt x y))).
    assert (In1 : c1 = true -> strictly_inside p1x p1y o1x o1y x y).
    { unfold c1. intros K. apply andb_prop in K. destruct K as [K1 K2].
      apply negb_true_iff in K1, K2. apply pt_eq_fpt_false in K1, K2.
      split; [exact On1|]. split; intros K; [apply K1 | apply K2]; now apply qeqp_sym. }
    assert (In2 : c2 = true -> strictly_inside p2x p2y o2x o2y x y).
    { unfold c2. intros K. apply andb_prop in K. destruct K as [K1 K2].
      apply negb_true_iff in K1, K2. apply pt_eq_fpt_false in K1, K2.
      split; [exact On2|]. split; intros K; [apply K1 | apply K2]; now apply qeqp_sym. }
    destruct c1 eqn:C1.
    + pose proof (divide_segment_inv NQ cfg s se1 (fpt x y) S M1) as DI.
      destruct (divide_segment cfg s se1 (fpt x y)) as [s1|site|] eqn:Dv1; cbn [obind]; [|exact I|exact I].
      destruct DI as [S1 G1].
      destruct (divide_segment_einv2 cfg s s1 se1 other1 p1x p1y o1x o1y x y S E M1 O1 Lf1 P1 Q1 (In1 eq_refl) Dv1) as (E1 & Fl1 & _).
      destruct c2 eqn:C2.
      * destruct (divide_segment_shape NQ cfg s s1 se1 other1 (fpt x y) W M1 Mo1 Hne1 O1 Dv1)
          as (r & l & i' & _ & _ & _ & _ & _ & _ & _ & _ & _ & _ & Keep & KeepO).
        assert (O2' : e_other (getE (sq_st s1) se2) = Some other2) by (rewrite (KeepO se2 M2 N21 N2o); exact O2).
        assert (P2' : e_point (getE (sq_st s1) se2) = fpt p2x p2y) by (rewrite (Keep se2 M2); exact P2).
        assert (Q2' : e_point (getE (sq_st s1) other2) = fpt o2x o2y) by (rewrite (Keep other2 Mo2); exact Q2).
        destruct (divide_segment cfg s1 se2 (fpt x y)) as [s2|site|] eqn:Dv2; cbn [obind]; [|exact I|exact I].
        cbn [pe2].
        assert (H01 : forall k, mapped NQ (sq_st s) k -> mapped NQ (sq_st s1) k /\ e_left (getE (sq_st s1) k) = e_left (getE (sq_st s) k))
          by (intros k Mk; split; [apply G1, Mk | apply Fl1, Mk]).
        assert (L2' : e_left (getE (sq_st s1) se2) = true) by (rewrite (Fl1 se2 M2); exact Lf2).
        exact (pe2_step cfg (sq_st s) s1 s2 se2 other2 p2x p2y o2x o2y x y S1 E1 H01 (G1 _ M2) O2' L2' P2' Q2' (In2 eq_refl) Dv2).
      * cbn [obind pe2]. split; [exact E1 | exact Fl1].
    + cbn [obind]. destruct c2 eqn:C2.
      * destruct (divide_segment cfg s se2 (fpt x y)) as [s2|site|] eqn:Dv2; cbn [obind]; [|exact I|exact I].
        cbn [pe2]. exact (pe2_step cfg (sq_st s) s s2 se2 other2 p2x p2y o2x o2y x y S E Same M2 O2 Lf2 P2 Q2 (In2 eq_refl) Dv2).
      * cbn [obind]. exact Good0.
  - (* an overlap *)
    destruct (eqb (e_is_subject (getE (sq_st s) se1)) (e_is_subject (getE (sq_st s) se2))); [exact Good0|].
    destruct (overlap_params _ _ _ _ _ _ _ _ _ _ Lx1 Lx2 EI) as (al & be & Hab & Ha1 & Hb0 & X2 & Y2 & X3 & Y3).
    (* the four points by their parameters on the first segment *)
    assert (Pp1 : has_param p1x p1y o1x o1y 0 p1x p1y) by (split; ring).
    assert (Po1 : has_param p1x p1y o1x o1y 1 o1x o1y) by (split; ring).
    assert (Pp2 : has_param p1x p1y o1x o1y al p2x p2y) by (split; assumption).
    assert (Po2 : has_param p1x p1y o1x o1y be o2x o2y) by (split; assumption).
    assert (N21 : pt_eq (fpt p1x p1y) (fpt p2x p2y) = false -> se2 <> se1).
    { intros Ep K. rewrite K in P2. rewrite P1 in P2. apply fpt_inj in P2. destruct P2 as [<- <-].
      apply pt_eq_fpt_false in Ep. apply Ep. split; reflexivity. }
    destruct (pt_eq (fpt p1x p1y) (fpt p2x p2y)) eqn:LC; destruct (pt_eq (fpt o1x o1y) (fpt o2x o2y)) eqn:RC.
    + (* both ends coincide: only edge types change *)
      cbn [negb app obind].
      set (ty := if eqb (e_in_out (getE (sq_st s) se1)) (e_in_out (getE (sq_st s) se2)) then SameTransition else DifferentTransition).
      set (st1 := upd (sq_st s) se2 (fun e => set_edge_type e NonContributing)).
      set (st2 := upd st1 se1 (fun e => set_edge_type e ty)).
      cbn [pe2 sq_st].
      assert (M1' : mapped NQ st1 se1) by (apply mapped_upd; now right).
      split.
      * apply einv2_upd; [apply k2_set_edge_type | exact M1' |].
        apply einv2_upd; [apply k2_set_edge_type | exact M2 | exact E].
      * intros k Mk.
        destruct (getE_upd_keeps_e2 st1 se1 (fun e => set_edge_type e ty) k (k2_set_edge_type ty)) as (_ & _ & _ & A).
        destruct (getE_upd_keeps_e2 (sq_st s) se2 (fun e => set_edge_type e NonContributing) k (k2_set_edge_type NonContributing)) as (_ & _ & _ & B).
        fold st1 in B. fold st2 in A. congruence.
    + (* left ends coincide: the longer segment is divided at the right end of the shorter one *)
      apply pt_eq_fpt in LC. apply pt_eq_fpt_false in RC.
      assert (Al0 : al == 0) by (symmetry; apply (qeqp_params p1x p1y o1x o1y Lx1 0 al p1x p1y p2x p2y Pp1 Pp2); exact LC).
      assert (Be1 : ~ be == 1) by (intros K; apply RC; apply (qeqp_params p1x p1y o1x o1y Lx1 1 be o1x o1y o2x o2y Po1 Po2); symmetry; exact K).
      cbn [negb app].
      set (ty := if eqb (e_in_out (getE (sq_st s) se1)) (e_in_out (getE (sq_st s) se2)) then SameTransition else DifferentTransition).
      set (st1 := upd (sq_st s) se2 (fun e => set_edge_type e NonContributing)).
      set (st2 := upd st1 se1 (fun e => set_edge_type e ty)).
      assert (K2 : forall k, e_point (getE st2 k) = e_point (getE (sq_st s) k) /\ e_other (getE st2 k) = e_other (getE (sq_st s) k)
                             /\ e_left (getE st2 k) = e_left (getE (sq_st s) k)).
      { intros k.
        destruct (getE_upd_keeps_e2 st1 se1 (fun e => set_edge_type e ty) k (k2_set_edge_type ty)) as (A1 & A2 & _ & A4).
        destruct (getE_upd_keeps_e2 (sq_st s) se2 (fun e => set_edge_type e NonContributing) k (k2_set_edge_type NonContributing)) as (B1 & B2 & _ & B4).
        fold st1 in B1, B2, B4. fold st2 in A1, A2, A4. repeat split; congruence. }
      assert (M1' : mapped NQ st1 se1) by (apply mapped_upd; now right).
      assert (E2' : einv2 st2).
      { apply einv2_upd; [apply k2_set_edge_type | exact M1' |].
        apply einv2_upd; [apply k2_set_edge_type | exact M2 | exact E]. }
      destruct (sqinv_set_edge_type NQ s se2 NonContributing S M2) as [Sa Ga].
      destruct (sqinv_set_edge_type NQ (mkSQ st1 (sq_q s)) se1 ty Sa M1') as [Sb Gb]. cbn [sq_st sq_q] in Sb, Gb. fold st2 in Sb, Gb.
      assert (H0 : forall k, mapped NQ (sq_st s) k -> mapped NQ (sq_st (mkSQ st2 (sq_q s))) k /\ e_left (getE (sq_st (mkSQ st2 (sq_q s))) k) = e_left (getE (sq_st s) k)).
      { intros k Mk. cbn [sq_st]. split; [apply Gb, Ga, Mk | apply K2]. }
      destruct (ev_lt (sq_st s) other1 other2) eqn:C2; cbn [nth_ev nth fst snd].
      * (* o2 before o1: be < 1; se1 is divided at o2 *)
        apply (ev_lt_lex (sq_st s) other1 other2 o1x o1y o2x o2y Q1 Q2 RC) in C2.
        apply (lexlt_params p1x p1y o1x o1y Lx1 be 1 o2x o2y o1x o1y Po2 Po1) in C2.
        unfold point_of. rewrite (proj1 (K2 other2)), Q2.
        destruct (divide_segment cfg (mkSQ st2 (sq_q s)) se1 (fpt o2x o2y)) as [s3|site|] eqn:Dv; cbn [obind]; [|exact I|exact I].
        cbn [pe2].
        assert (Hin : strictly_inside p1x p1y o1x o1y o2x o2y) by (apply (inside_by_params p1x p1y o1x o1y Lx1 0 1 be); auto; lra).
        assert (MT : mapped NQ (sq_st (mkSQ st2 (sq_q s))) se1) by (cbn [sq_st]; apply Gb, Ga, M1).
        assert (OT : e_other (getE (sq_st (mkSQ st2 (sq_q s))) se1) = Some other1) by (cbn [sq_st]; rewrite (proj1 (proj2 (K2 se1))); exact O1).
        assert (LT : e_left (getE (sq_st (mkSQ st2 (sq_q s))) se1) = true) by (cbn [sq_st]; rewrite (proj2 (proj2 (K2 se1))); exact Lf1).
        assert (PT : e_point (getE (sq_st (mkSQ st2 (sq_q s))) se1) = fpt p1x p1y) by (cbn [sq_st]; rewrite (proj1 (K2 se1)); exact P1).
        assert (PTr : e_point (getE (sq_st (mkSQ st2 (sq_q s))) other1) = fpt o1x o1y) by (cbn [sq_st]; rewrite (proj1 (K2 other1)); exact Q1).
        exact (pe2_step cfg (sq_st s) (mkSQ st2 (sq_q s)) s3 se1 other1 p1x p1y o1x o1y o2x o2y Sb E2' H0 MT OT LT PT PTr Hin Dv).
      * (* o1 before o2: 1 < be; se2 is divided at o1 *)
        apply (ev_lt_lex_false (sq_st s) other1 other2 o1x o1y o2x o2y Q1 Q2 RC) in C2.
        apply (lexlt_params p1x p1y o1x o1y Lx1 1 be o1x o1y o2x o2y Po1 Po2) in C2.
        unfold point_of. rewrite (proj1 (K2 other1)), Q1.
        destruct (divide_segment cfg (mkSQ st2 (sq_q s)) se2 (fpt o1x o1y)) as [s3|site|] eqn:Dv; cbn [obind]; [|exact I|exact I].
        cbn [pe2].
        assert (Hin : strictly_inside p2x p2y o2x o2y o1x o1y) by (apply (inside_by_params p1x p1y o1x o1y Lx1 al be 1); auto; lra).
        assert (MT : mapped NQ (sq_st (mkSQ st2 (sq_q s))) se2) by (cbn [sq_st]; apply Gb, Ga, M2).
        assert (OT : e_other (getE (sq_st (mkSQ st2 (sq_q s))) se2) = Some other2) by (cbn [sq_st]; rewrite (proj1 (proj2 (K2 se2))); exact O2).
        assert (LT : e_left (getE (sq_st (mkSQ st2 (sq_q s))) se2) = true) by (cbn [sq_st]; rewrite (proj2 (proj2 (K2 se2))); exact Lf2).
        assert (PT : e_point (getE (sq_st (mkSQ st2 (sq_q s))) se2) = fpt p2x p2y) by (cbn [sq_st]; rewrite (proj1 (K2 se2)); exact P2).
        assert (PTr : e_point (getE (sq_st (mkSQ st2 (sq_q s))) other2) = fpt o2x o2y) by (cbn [sq_st]; rewrite (proj1 (K2 other2)); exact Q2).
        exact (pe2_step cfg (sq_st s) (mkSQ st2 (sq_q s)) s3 se2 other2 p2x p2y o2x o2y o1x o1y Sb E2' H0 MT OT LT PT PTr Hin Dv).
    + (* right ends coincide: the earlier segment is divided at the left end of the later one *)
      apply pt_eq_fpt_false in LC. apply pt_eq_fpt in RC.
      assert (Be1 : be == 1) by (symmetry; apply (qeqp_params p1x p1y o1x o1y Lx1 1 be o1x o1y o2x o2y Po1 Po2); exact RC).
      assert (Al0 : ~ al == 0) by (intros K; apply LC; apply (qeqp_params p1x p1y o1x o1y Lx1 0 al p1x p1y p2x p2y Pp1 Pp2); symmetry; exact K).
      cbn [negb app]. rewrite app_nil_r.
      destruct (ev_lt (sq_st s) se1 se2) eqn:C1; cbn [nth_ev nth fst snd].
      * (* p2 before p1: al < 0; se2 is divided at p1 *)
        apply (ev_lt_lex (sq_st s) se1 se2 p1x p1y p2x p2y P1 P2 LC) in C1.
        apply (lexlt_params p1x p1y o1x o1y Lx1 al 0 p2x p2y p1x p1y Pp2 Pp1) in C1.
        unfold point_of. rewrite P1.
        destruct (divide_segment cfg s se2 (fpt p1x p1y)) as [s1|site|] eqn:Dv; cbn [obind]; [|exact I|exact I].
        cbn [pe2].
        assert (Hin : strictly_inside p2x p2y o2x o2y p1x p1y) by (apply (inside_by_params p1x p1y o1x o1y Lx1 al be 0); auto; lra).
        exact (pe2_step cfg (sq_st s) s s1 se2 other2 p2x p2y o2x o2y p1x p1y S E Same M2 O2 Lf2 P2 Q2 Hin Dv).
      * apply (ev_lt_lex_false (sq_st s) se1 se2 p1x p1y p2x p2y P1 P2 LC) in C1.
        apply (lexlt_params p1x p1y o1x o1y Lx1 0 al p1x p1y p2x p2y Pp1 Pp2) in C1.
        unfold point_of. rewrite P2.
        destruct (divide_segment cfg s se1 (fpt p2x p2y)) as [s1|site|] eqn:Dv; cbn [obind]; [|exact I|exact I].
        cbn [pe2].
        assert (Hin : strictly_inside p1x p1y o1x o1y p2x p2y) by (apply (inside_by_params p1x p1y o1x o1y Lx1 0 1 al); auto; lra).
        exact (pe2_step cfg (sq_st s) s s1 se1 other1 p1x p1y o1x o1y p2x p2y S E Same M1 O1 Lf1 P1 Q1 Hin Dv).
    + (* four distinct ends *)
      apply pt_eq_fpt_false in LC. apply pt_eq_fpt_false in RC.
      assert (Be1 : ~ be == 1) by (intros K; apply RC; apply (qeqp_params p1x p1y o1x o1y Lx1 1 be o1x o1y o2x o2y Po1 Po2); symmetry; exact K).
      assert (Al0 : ~ al == 0) by (intros K; apply LC; apply (qeqp_params p1x p1y o1x o1y Lx1 0 al p1x p1y p2x p2y Pp1 Pp2); symmetry; exact K).
      assert (N21' : se2 <> se1).
      { intros K. rewrite K in P2. rewrite P1 in P2. apply fpt_inj in P2. destruct P2 as [<- <-]. apply LC. split; reflexivity. }
      cbn [negb].
      destruct (ev_lt (sq_st s) se1 se2) eqn:C1; destruct (ev_lt (sq_st s) other1 other2) eqn:C2;
        cbn [app nth_ev nth fst snd].
      * (* al < 0, be < 1: partial overlap, se2 first *)
        apply (ev_lt_lex (sq_st s) se1 se2 p1x p1y p2x p2y P1 P2 LC) in C1.
        apply (lexlt_params p1x p1y o1x o1y Lx1 al 0 p2x p2y p1x p1y Pp2 Pp1) in C1.
        apply (ev_lt_lex (sq_st s) other1 other2 o1x o1y o2x o2y Q1 Q2 RC) in C2.
        apply (lexlt_params p1x p1y o1x o1y Lx1 be 1 o2x o2y o1x o1y Po2 Po1) in C2.
        rewrite (proj2 (Pos.eqb_neq se2 se1) N21'). cbn [negb].
        rewrite P1.
        pose proof (divide_segment_inv NQ cfg s se2 (fpt p1x p1y) S M2) as DI.
        destruct (divide_segment cfg s se2 (fpt p1x p1y)) as [s1|site|] eqn:Dv1; cbn [obind]; [|exact I|exact I].
        destruct DI as [S1 G1].
        assert (In1 : strictly_inside p2x p2y o2x o2y p1x p1y) by (apply (inside_by_params p1x p1y o1x o1y Lx1 al be 0); auto; lra).
        destruct (divide_segment_einv2 cfg s s1 se2 other2 p2x p2y o2x o2y p1x p1y S E M2 O2 Lf2 P2 Q2 In1 Dv1) as (E1 & Fl1 & _).
        destruct (divide_segment_shape NQ cfg s s1 se2 other2 (fpt p1x p1y) W M2 Mo2 Hne2 O2 Dv1)
          as (r & l & i' & _ & _ & _ & _ & _ & _ & _ & _ & _ & _ & Keep & KeepO).
        unfold point_of. rewrite (Keep other2 Mo2), Q2.
        destruct (divide_segment cfg s1 se1 (fpt o2x o2y)) as [s2|site|] eqn:Dv2; cbn [obind]; [|exact I|exact I].
        cbn [pe2].
        assert (H01 : forall k, mapped NQ (sq_st s) k -> mapped NQ (sq_st s1) k /\ e_left (getE (sq_st s1) k) = e_left (getE (sq_st s) k))
          by (intros k Mk; split; [apply G1, Mk | apply Fl1, Mk]).
        assert (OT : e_other (getE (sq_st s1) se1) = Some other1) by (rewrite (KeepO se1 M1 (not_eq_sym N21') N1o); exact O1).
        assert (LT : e_left (getE (sq_st s1) se1) = true) by (rewrite (Fl1 se1 M1); exact Lf1).
        assert (PT : e_point (getE (sq_st s1) se1) = fpt p1x p1y) by (rewrite (Keep se1 M1); exact P1).
        assert (PTr : e_point (getE (sq_st s1) other1) = fpt o1x o1y) by (rewrite (Keep other1 Mo1); exact Q1).
        assert (Hin : strictly_inside p1x p1y o1x o1y o2x o2y) by (apply (inside_by_params p1x p1y o1x o1y Lx1 0 1 be); auto; lra).
        exact (pe2_step cfg (sq_st s) s1 s2 se1 other1 p1x p1y o1x o1y o2x o2y S1 E1 H01 (G1 _ M1) OT LT PT PTr Hin Dv2).
      * (* al < 0, 1 < be: the second segment contains the first *)
        apply (ev_lt_lex (sq_st s) se1 se2 p1x p1y p2x p2y P1 P2 LC) in C1.
        apply (lexlt_params p1x p1y o1x o1y Lx1 al 0 p2x p2y p1x p1y Pp2 Pp1) in C1.
        apply (ev_lt_lex_false (sq_st s) other1 other2 o1x o1y o2x o2y Q1 Q2 RC) in C2.
        apply (lexlt_params p1x p1y o1x o1y Lx1 1 be o1x o1y o2x o2y Po1 Po2) in C2.
        rewrite Pos.eqb_refl. cbn [negb].
        rewrite P1.
        pose proof (divide_segment_inv NQ cfg s se2 (fpt p1x p1y) S M2) as DI.
        destruct (divide_segment cfg s se2 (fpt p1x p1y)) as [s1|site|] eqn:Dv1; cbn [obind]; [|exact I|exact I].
        destruct DI as [S1 G1].
        assert (In1 : strictly_inside p2x p2y o2x o2y p1x p1y) by (apply (inside_by_params p1x p1y o1x o1y Lx1 al be 0); auto; lra).
        destruct (divide_segment_einv2 cfg s s1 se2 other2 p2x p2y o2x o2y p1x p1y S E M2 O2 Lf2 P2 Q2 In1 Dv1) as (E1 & Fl1 & Hl).
        destruct (divide_segment_shape NQ cfg s s1 se2 other2 (fpt p1x p1y) W M2 Mo2 Hne2 O2 Dv1)
          as (r & l & i' & _ & _ & _ & _ & _ & _ & A4 & _ & _ & _ & Keep & KeepO).
        unfold other_of. rewrite A4.
        destruct (Hl l A4) as (Ll & Pl & Ol & _).
        unfold point_of. rewrite (Keep other1 Mo1), Q1.
        assert (Ml1 : mapped NQ (sq_st s1) l).
        { destruct (mapped_dec NQ (sq_st s1) l) as [K|K]; [exact K|]. rewrite (getE_unmapped_other _ _ K) in Ol. discriminate. }
        destruct (divide_segment cfg s1 l (fpt o1x o1y)) as [s2|site|] eqn:Dv2; cbn [obind]; [|exact I|exact I].
        cbn [pe2].
        assert (H01 : forall k, mapped NQ (sq_st s) k -> mapped NQ (sq_st s1) k /\ e_left (getE (sq_st s1) k) = e_left (getE (sq_st s) k))
          by (intros k Mk; split; [apply G1, Mk | apply Fl1, Mk]).
        assert (PTr : e_point (getE (sq_st s1) other2) = fpt o2x o2y) by (rewrite (Keep other2 Mo2); exact Q2).
        assert (Hin : strictly_inside p1x p1y o2x o2y o1x o1y) by (apply (inside_by_params p1x p1y o1x o1y Lx1 0 be 1); auto; lra).
        exact (pe2_step cfg (sq_st s) s1 s2 l other2 p1x p1y o2x o2y o1x o1y S1 E1 H01 Ml1 Ol Ll Pl PTr Hin Dv2).
      * (* 0 < al, be < 1: the first segment contains the second *)
        apply (ev_lt_lex_false (sq_st s) se1 se2 p1x p1y p2x p2y P1 P2 LC) in C1.
        apply (lexlt_params p1x p1y o1x o1y Lx1 0 al p1x p1y p2x p2y Pp1 Pp2) in C1.
        apply (ev_lt_lex (sq_st s) other1 other2 o1x o1y o2x o2y Q1 Q2 RC) in C2.
        apply (lexlt_params p1x p1y o1x o1y Lx1 be 1 o2x o2y o1x o1y Po2 Po1) in C2.
        rewrite Pos.eqb_refl. cbn [negb].
        rewrite P2.
        pose proof (divide_segment_inv NQ cfg s se1 (fpt p2x p2y) S M1) as DI.
        destruct (divide_segment cfg s se1 (fpt p2x p2y)) as [s1|site|] eqn:Dv1; cbn [obind]; [|exact I|exact I].
        destruct DI as [S1 G1].
        assert (In1 : strictly_inside p1x p1y o1x o1y p2x p2y) by (apply (inside_by_params p1x p1y o1x o1y Lx1 0 1 al); auto; lra).
        destruct (divide_segment_einv2 cfg s s1 se1 other1 p1x p1y o1x o1y p2x p2y S E M1 O1 Lf1 P1 Q1 In1 Dv1) as (E1 & Fl1 & Hl).
        destruct (divide_segment_shape NQ cfg s s1 se1 other1 (fpt p2x p2y) W M1 Mo1 Hne1 O1 Dv1)
          as (r & l & i' & _ & _ & _ & _ & _ & _ & A4 & _ & _ & _ & Keep & KeepO).
        unfold other_of. rewrite A4.
        destruct (Hl l A4) as (Ll & Pl & Ol & _).
        unfold point_of. rewrite (Keep other2 Mo2), Q2.
        assert (Ml1 : mapped NQ (sq_st s1) l).
        { destruct (mapped_dec NQ (sq_st s1) l) as [K|K]; [exact K|]. rewrite (getE_unmapped_other _ _ K) in Ol. discriminate. }
        destruct (divide_segment cfg s1 l (fpt o2x o2y)) as [s2|site|] eqn:Dv2; cbn [obind]; [|exact I|exact I].
        cbn [pe2].
        assert (H01 : forall k, mapped NQ (sq_st s) k -> mapped NQ (sq_st s1) k /\ e_left (getE (sq_st s1) k) = e_left (getE (sq_st s) k))
          by (intros k Mk; split; [apply G1, Mk | apply Fl1, Mk]).
        assert (PTr : e_point (getE (sq_st s1) other1) = fpt o1x o1y) by (rewrite (Keep other1 Mo1); exact Q1).
        assert (Hin : strictly_inside p2x p2y o1x o1y o2x o2y) by (apply (inside_by_params p1x p1y o1x o1y Lx1 al 1 be); auto; lra).
        exact (pe2_step cfg (sq_st s) s1 s2 l other1 p2x p2y o1x o1y o2x o2y S1 E1 H01 Ml1 Ol Ll Pl PTr Hin Dv2).
      * (* 0 < al, 1 < be: partial overlap, se1 first *)
        apply (ev_lt_lex_false (sq_st s) se1 se2 p1x p1y p2x p2y P1 P2 LC) in C1.
        apply (lexlt_params p1x p1y o1x o1y Lx1 0 al p1x p1y p2x p2y Pp1 Pp2) in C1.
        apply (ev_lt_lex_false (sq_st s) other1 other2 o1x o1y o2x o2y Q1 Q2 RC) in C2.
        apply (lexlt_params p1x p1y o1x o1y Lx1 1 be o1x o1y o2x o2y Po1 Po2) in C2.
        rewrite (proj2 (Pos.eqb_neq se1 se2) (not_eq_sym N21')). cbn [negb].
        rewrite P2.
        pose proof (divide_segment_inv NQ cfg s se1 (fpt p2x p2y) S M1) as DI.
        destruct (divide_segment cfg s se1 (fpt p2x p2y)) as [s1|site|] eqn:Dv1; cbn [obind]; [|exact I|exact I].
        destruct DI as [S1 G1].
        assert (In1 : strictly_inside p1x p1y o1x o1y p2x p2y) by (apply (inside_by_params p1x p1y o1x o1y Lx1 0 1 al); auto; lra).
        destruct (divide_segment_einv2 cfg s s1 se1 other1 p1x p1y o1x o1y p2x p2y S E M1 O1 Lf1 P1 Q1 In1 Dv1) as (E1 & Fl1 & _).
        destruct (divide_segment_shape NQ cfg s s1 se1 other1 (fpt p2x p2y) W M1 Mo1 Hne1 O1 Dv1)
          as (r & l & i' & _ & _ & _ & _ & _ & _ & _ & _ & _ & _ & Keep & KeepO).
        unfold point_of. rewrite (Keep other1 Mo1), Q1.
        destruct (divide_segment cfg s1 se2 (fpt o1x o1y)) as [s2|site|] eqn:Dv2; cbn [obind]; [|exact I|exact I].
        cbn [pe2].
        assert (H01 : forall k, mapped NQ (sq_st s) k -> mapped NQ (sq_st s1) k /\ e_left (getE (sq_st s1) k) = e_left (getE (sq_st s) k))
          by (intros k Mk; split; [apply G1, Mk | apply Fl1, Mk]).
        assert (OT : e_other (getE (sq_st s1) se2) = Some other2) by (rewrite (KeepO se2 M2 N21' N2o); exact O2).
        assert (LT : e_left (getE (sq_st s1) se2) = true) by (rewrite (Fl1 se2 M2); exact Lf2).
        assert (PT : e_point (getE (sq_st s1) se2) = fpt p2x p2y) by (rewrite (Keep se2 M2); exact P2).
        assert (PTr : e_point (getE (sq_st s1) other2) = fpt o2x o2y) by (rewrite (Keep other2 Mo2); exact Q2).
        assert (Hin : strictly_inside p2x p2y o2x o2y o1x o1y) by (apply (inside_by_params p1x p1y o1x o1y Lx1 al be 1); auto; lra).
        exact (pe2_step cfg (sq_st s) s1 s2 se2 other2 p2x p2y o2x o2y o1x o1y S1 E1 H01 (G1 _ M2) OT LT PT PTr Hin Dv2).
Qed.


(** ** the sweep *)
Notation slkeys := (@keys eid unit).

Definition FP (st0 st : store) : Prop := forall k, mapped NQ st0 k -> e_left (getE st k) = e_left (getE st0 k).
Lemma FP_refl st : FP st st. Proof. intros k _. reflexivity. Qed.
Lemma FP_trans a b c : grows NQ a b -> FP a b -> FP b c -> FP a c.
Proof. intros G H1 H2 k Mk. rewrite (H2 k (G k Mk)). exact (H1 k Mk). Qed.

Definition sq2 (st0 : store) (x : sq NQ) : Prop :=
  sqinv NQ x /\ einv2 (sq_st x) /\ grows NQ st0 (sq_st x) /\ FP st0 (sq_st x).

Lemma compute_fields_sq2 cfg st0 (x : sq NQ) ev mp op :
  sq2 st0 x -> mapped NQ (sq_st x) ev -> sq2 st0 (mkSQ (compute_fields cfg (sq_st x) ev mp op) (sq_q x)).
Proof.
  intros (S & E & G & F) M. destruct (compute_fields_sq NQ cfg x ev mp op S M) as [S' G'].
  split; [exact S'|]. cbn [sq_st]. split; [now apply compute_fields_einv2|]. split.
  - eapply grows_trans; eauto.
  - intros k Mk. rewrite compute_fields_left. exact (F k Mk).
Qed.

(** [possible_intersection] on two left events of a good state *)
Lemma pi_sq2 cfg st0 (x : sq NQ) (a b : eid) :
  sq2 st0 x -> mapped NQ (sq_st x) a -> mapped NQ (sq_st x) b ->
  e_left (getE (sq_st x) a) = true -> e_left (getE (sq_st x) b) = true ->
  match possible_intersection cfg x a b with
  | Ok (x', _) => sq2 st0 x'
  | _ => True
  end.
Proof.
  intros (S & E & G & F) Ma Mb La Lb.
  pose proof (possible_intersection_inv NQ cfg x a b S Ma Mb) as PG.
  pose proof (possible_intersection_pe2 cfg x a b S E Ma Mb La Lb) as PE.
  destruct (possible_intersection cfg x a b) as [[x' code]|site|]; [|exact I|exact I].
  destruct PG as [S' G']. destruct PE as [E' F'].
  split; [exact S'|]. split; [exact E'|]. split; [eapply grows_trans; eauto|].
  eapply FP_trans; eauto.
Qed.

Definition oke2 (st0 : store) (keys0 : list eid) (r : outcome (sweep NQ)) : Prop :=
  match r with
  | Ok s' => einv2 (sw_st s') /\ FP st0 (sw_st s') /\ (forall k, In k (slkeys (sw_sl s')) -> In k keys0)
  | _ => True
  end.

Definition keys_left (st : store) (ks : list eid) : Prop := forall k, In k ks -> e_left (getE st k) = true.

Theorem handle_left_e2 cfg (s : sweep NQ) (ev : eid) (op : operation) :
  swinv NQ s -> einv2 (sw_st s) -> keys_left (sw_st s) (slkeys (sw_sl s)) ->
  mapped NQ (sw_st s) ev -> e_left (getE (sw_st s) ev) = true ->
  oke2 (sw_st s) (ev :: slkeys (sw_sl s)) (handle_left cfg s ev op).
Proof.
  intros (S & Q & A & B) P KL Mev Lev. unfold handle_left.
  set (st := sw_st s) in *.
  set (sl1 := sl_insert st (sw_sl s) ev).
  assert (K1 : forall k, In k (slkeys sl1) -> In k (ev :: slkeys (sw_sl s))).
  { intros k Hk. apply sl_insert_keys in Hk. destruct Hk as [->|Hk]; [now left | now right]. }
  assert (A1 : all_mapped NQ st (slkeys sl1)).
  { intros k Hk. destruct (K1 k Hk) as [<-|Hk']; auto. }
  assert (KL1 : keys_left st (slkeys sl1)).
  { intros k Hk. destruct (K1 k Hk) as [<-|Hk']; auto. }
  destruct (sl_prev_spec NQ st sl1 ev) as [Kp Ip].
  destruct (sl_prev st sl1 ev) as [sl2 maybe_prev]. cbn [fst snd] in Kp, Ip.
  destruct (sl_next_spec NQ st sl2 ev) as [Kn In_].
  destruct (sl_next st sl2 ev) as [sl3 maybe_next]. cbn [fst snd] in Kn, In_.
  assert (Kprev : forall p, maybe_prev = Some p -> In p (slkeys sl1)) by (intros p Hp; apply Ip, Hp).
  assert (Knext : forall p, maybe_next = Some p -> In p (slkeys sl1)) by (intros p Hp; rewrite <- Kp; apply In_, Hp).
  assert (K3 : forall k, In k (slkeys sl3) -> In k (ev :: slkeys (sw_sl s))) by (intros k Hk; apply K1; rewrite <- Kp, <- Kn; exact Hk).
  assert (X0 : sq2 st (mkSQ st (sw_q s))).
  { split; [split; assumption|]. split; [exact P|]. split; [apply grows_refl | apply FP_refl]. }
  pose proof (compute_fields_sq2 cfg st (mkSQ st (sw_q s)) ev maybe_prev op X0 Mev) as X1.
  cbn [sq_st sq_q] in X1.
  set (x1 := mkSQ (compute_fields cfg st ev maybe_prev op) (sw_q s)) in *.
  (* facts about events of the original store in any good later state *)
  assert (Use : forall x k, sq2 st x -> mapped NQ st k -> e_left (getE st k) = true ->
                 mapped NQ (sq_st x) k /\ e_left (getE (sq_st x) k) = true).
  { intros x k (_ & _ & G & F) Mk Lk. split; [apply G, Mk | rewrite (F k Mk); exact Lk]. }
  assert (Step1 : match
            (match maybe_next with
             | Some next =>
                 obind (possible_intersection cfg x1 ev next) (fun r =>
                 let '(x, code) := r in
                 if Nat.eqb code 2 then
                   let st_a := compute_fields cfg (sq_st x) ev maybe_prev op in
                   let st_b := compute_fields cfg st_a next (Some ev) op in
                   Ok (mkSQ st_b (sq_q x))
                 else Ok x)
             | None => Ok x1
             end) with
          | Ok x2 => sq2 st x2
          | _ => True
          end).
  { destruct maybe_next as [next|]; [|exact X1].
    assert (Mn : mapped NQ st next) by (apply A1, Knext; reflexivity).
    assert (Ln : e_left (getE st next) = true) by (apply KL1, Knext; reflexivity).
    destruct (Use x1 ev X1 Mev Lev) as [Me1 Le1]. destruct (Use x1 next X1 Mn Ln) as [Mn1 Ln1].
    pose proof (pi_sq2 cfg st x1 ev next X1 Me1 Mn1 Le1 Ln1) as PP.
    destruct (possible_intersection cfg x1 ev next) as [[x code]| site |]; cbn [obind]; [|exact I|exact I].
    destruct (Nat.eqb code 2); [|exact PP].
    destruct (Use x ev PP Mev Lev) as [Me _].
    pose proof (compute_fields_sq2 cfg st x ev maybe_prev op PP Me) as Sa.
    destruct (Use _ next Sa Mn Ln) as [Mna _].
    exact (compute_fields_sq2 cfg st _ next (Some ev) op Sa Mna). }
  destruct (match maybe_next with Some next => _ | None => Ok x1 end) as [x2| site |]; cbn [obind]; try exact I.
  destruct maybe_prev as [prev|].
  - assert (Mp : mapped NQ st prev) by (apply A1, Kprev; reflexivity).
    assert (Lp : e_left (getE st prev) = true) by (apply KL1, Kprev; reflexivity).
    destruct (Use x2 ev Step1 Mev Lev) as [Me2 Le2]. destruct (Use x2 prev Step1 Mp Lp) as [Mp2 Lp2].
    pose proof (pi_sq2 cfg st x2 prev ev Step1 Mp2 Me2 Lp2 Le2) as PP.
    destruct (possible_intersection cfg x2 prev ev) as [[x code]| site |]; cbn [obind]; try exact I.
    destruct (Nat.eqb code 2).
    + destruct (sl_prev_spec NQ (sq_st x) sl3 prev) as [Kp4 _].
      destruct (sl_prev (sq_st x) sl3 prev) as [sl4 mpp]. cbn [fst] in Kp4.
      destruct (Use x prev PP Mp Lp) as [Mpx _].
      pose proof (compute_fields_sq2 cfg st x prev mpp op PP Mpx) as Sa.
      destruct (Use _ ev Sa Mev Lev) as [Mea _].
      pose proof (compute_fields_sq2 cfg st _ ev (Some prev) op Sa Mea) as (_ & Eb & _ & Fb).
      cbn [oke2 with_sq sw_st sw_sl sq_st]. split; [exact Eb|]. split; [exact Fb|].
      intros k Hk. apply K3. rewrite <- Kp4. exact Hk.
    + destruct PP as (_ & Ex & _ & Fx). cbn [oke2 with_sq sw_st sw_sl]. split; [exact Ex|]. split; [exact Fx|]. exact K3.
  - destruct Step1 as (_ & Ex & _ & Fx). cbn [oke2 with_sq sw_st sw_sl]. split; [exact Ex|]. split; [exact Fx|]. exact K3.
Qed.

Theorem handle_right_e2 cfg (s : sweep NQ) (other : eid) :
  swinv NQ s -> einv2 (sw_st s) -> keys_left (sw_st s) (slkeys (sw_sl s)) ->
  oke2 (sw_st s) (slkeys (sw_sl s)) (handle_right cfg s other).
Proof.
  intros (S & Q & A & B) P KL. unfold handle_right.
  set (st := sw_st s) in *.
  pose proof (sl_contains_keys NQ st (sw_sl s) other) as Kc.
  destruct (sl_contains st (sw_sl s) other) as [sl1 present]. cbn [fst] in Kc.
  destruct (c_debug cfg && negb present); [exact I|].
  assert (Good : forall sl', (forall k, In k (slkeys sl') -> In k (slkeys (sw_sl s))) ->
            oke2 st (slkeys (sw_sl s)) (Ok (mkSweep st (sw_q s) sl' (sw_sorted s)))).
  { intros sl' Hk. cbn. split; [exact P|]. split; [apply FP_refl | exact Hk]. }
  destruct present; [|apply Good; intros k Hk; rewrite <- Kc; exact Hk].
  destruct (sl_prev_spec NQ st sl1 other) as [Kp Ip].
  destruct (sl_prev st sl1 other) as [sl2 maybe_prev]. cbn [fst snd] in Kp, Ip.
  destruct (sl_next_spec NQ st sl2 other) as [Kn In_].
  destruct (sl_next st sl2 other) as [sl3 maybe_next]. cbn [fst snd] in Kn, In_.
  assert (K3 : forall k, In k (slkeys sl3) -> In k (slkeys (sw_sl s))) by (intros k Hk; rewrite <- Kc, <- Kp, <- Kn; exact Hk).
  assert (X0 : sq2 st (mkSQ st (sw_q s))).
  { split; [split; assumption|]. split; [exact P|]. split; [apply grows_refl | apply FP_refl]. }
  assert (Fin : forall x, sq2 st x -> oke2 st (slkeys (sw_sl s)) (Ok (with_sq s x (sl_remove (sq_st x) sl3 other)))).
  { intros x (_ & Ex & _ & Fx). cbn [oke2 with_sq sw_st sw_sl]. split; [exact Ex|]. split; [exact Fx|].
    intros k Hk. apply sl_remove_keys in Hk. now apply K3. }
  destruct maybe_prev as [prev|]; [|cbn [obind]; now apply Fin].
  destruct maybe_next as [next|]; [|cbn [obind]; now apply Fin].
  assert (Hp : In prev (slkeys (sw_sl s))) by (rewrite <- Kc; apply Ip; reflexivity).
  assert (Hn : In next (slkeys (sw_sl s))) by (rewrite <- Kc, <- Kp; apply In_; reflexivity).
  pose proof (pi_sq2 cfg st (mkSQ st (sw_q s)) prev next X0 (A _ Hp) (A _ Hn) (KL _ Hp) (KL _ Hn)) as PP.
  destruct (possible_intersection cfg (mkSQ st (sw_q s)) prev next) as [[x code]| site |]; cbn [obind fst]; try exact I.
  now apply Fin.
Qed.

Theorem sweep_loop_e2 cfg : forall (fuel : nat) (s : sweep NQ) sbbox cbbox rightbound op,
  swinv NQ s -> einv2 (sw_st s) -> keys_left (sw_st s) (slkeys (sw_sl s)) ->
  match sweep_loop cfg fuel s sbbox cbbox rightbound op with
  | Ok s' => einv2 (sw_st s')
  | _ => True
  end.
Proof.
  induction fuel as [|f IH]; intros s sbbox cbbox rightbound op Hs P KL; cbn [sweep_loop].
  - destruct (qpop (sw_st s) (sw_q s)); [exact I | exact P].
  - destruct (qpop (sw_st s) (sw_q s)) as [[ev q']|] eqn:Hp; [|exact P].
    pose proof Hs as (S & Q & A & B).
    destruct (qpop_mapped NQ (sw_st s) (sw_st s) (sw_q s) ev q' Q Hp) as [Mev Q'].
    set (s1 := mkSweep (sw_st s) q' (sw_sl s) (ev :: sw_sorted s)).
    assert (S1 : swinv NQ s1).
    { unfold swinv, s1; cbn [sw_st sw_q sw_sl sw_sorted]. repeat split; try tauto.
      - apply S. - apply S. - intros i [<-|Hi]; auto. }
    destruct (negb (c_noshort cfg) && _); [exact P|].
    destruct (e_left (getE (sw_st s) ev)) eqn:Lev.
    + pose proof (handle_left_inv NQ cfg s1 ev op S1 Mev) as G.
      pose proof (handle_left_e2 cfg s1 ev op S1 P KL Mev Lev) as G2.
      destruct (handle_left cfg s1 ev op) as [s2| site |]; cbn [obind]; try exact I.
      destruct G as [S2 _]. destruct G2 as (E2 & F2 & K2).
      apply (IH s2 sbbox cbbox rightbound op S2 E2).
      intros k Hk. cbn [sw_st s1] in F2. destruct (K2 k Hk) as [<-|Hk'].
      * rewrite (F2 ev Mev). exact Lev.
      * rewrite (F2 k (A k Hk')). exact (KL k Hk').
    + destruct (e_other (getE (sw_st s) ev)) as [other|].
      * pose proof (handle_right_inv NQ cfg s1 other S1) as G.
        pose proof (handle_right_e2 cfg s1 other S1 P KL) as G2.
        destruct (handle_right cfg s1 other) as [s2| site |]; cbn [obind]; try exact I.
        destruct G as [S2 _]. destruct G2 as (E2 & F2 & K2).
        apply (IH s2 sbbox cbbox rightbound op S2 E2).
        intros k Hk. specialize (K2 k Hk). cbn [sw_sl s1] in K2. cbn [sw_st s1] in F2.
        rewrite (F2 k (A k K2)). exact (KL k K2).
      * cbn [obind]. apply (IH s1 sbbox cbbox rightbound op S1 P KL).
Qed.


(** ** [fill_queue] establishes the oriented invariant *)
Definition fqe2 (s : fq NQ) : Prop := fqinv NQ s /\ einv2 (fq_st s).

Lemma process_edge_einv2 (s : fq NQ) subj cid ext (a b : pt NQ) :
  edge_in edges subj a b -> fqe2 s -> fqe2 (process_edge s subj cid ext a b).
Proof.
  intros (ax & ay & bx & by_ & -> & -> & Hin) [F E]. split; [now apply process_edge_inv|].
  destruct F as [[W L] Q]. unfold process_edge.
  destruct (pt_eq (fpt ax ay) (fpt bx by_)) eqn:Epe; [exact E|].
  apply pt_eq_fpt_false in Epe.
  destruct (alloc (fq_st s) (new_event cid (fpt ax ay) false None subj ext)) as [st1 e1] eqn:E1.
  destruct (alloc st1 (new_event cid (fpt bx by_) false (Some e1) subj ext)) as [st2 e2] eqn:E2.
  assert (H1 : st1 = fst (alloc (fq_st s) (new_event cid (fpt ax ay) false None subj ext))) by (rewrite E1; reflexivity).
  assert (H2 : st2 = fst (alloc st1 (new_event cid (fpt bx by_) false (Some e1) subj ext))) by (rewrite E2; reflexivity).
  assert (I1 : e1 = st_next (fq_st s)) by (unfold alloc in E1; now inversion E1).
  assert (I2 : e2 = st_next st1) by (unfold alloc in E2; now inversion E2).
  assert (I2' : e2 = Pos.succ e1) by (rewrite I2, H1, next_alloc, I1; reflexivity).
  assert (N12 : e1 <> e2) by (rewrite I2'; lia).
  assert (Fr1 : ~ mapped NQ (fq_st s) e1) by (rewrite I1; now apply fresh_unmapped).
  assert (Fr2 : ~ mapped NQ (fq_st s) e2).
  { intros M. pose proof (W _ M). rewrite I2', I1 in H. lia. }
  assert (G2e1 : getE st2 e1 = new_event cid (fpt ax ay) false None subj ext).
  { rewrite H2, getE_alloc_old by (rewrite <- I2; exact N12). rewrite H1, I1. apply getE_alloc_new. }
  assert (G2e2 : getE st2 e2 = new_event cid (fpt bx by_) false (Some e1) subj ext).
  { rewrite H2, I2. apply getE_alloc_new. }
  assert (G2old : forall k, mapped NQ (fq_st s) k -> getE st2 k = getE (fq_st s) k).
  { intros k Mk. assert (K1 : k <> e1) by (intros ->; contradiction). assert (K2 : k <> e2) by (intros ->; contradiction).
    rewrite H2, getE_alloc_old by (rewrite <- I2; exact K2). rewrite H1, getE_alloc_old by (rewrite <- I1; exact K1). reflexivity. }
  set (st3 := upd st2 e1 (fun e => set_other e (Some e2))).
  assert (G3e1 : getE st3 e1 = set_other (new_event cid (fpt ax ay) false None subj ext) (Some e2)).
  { unfold st3. rewrite getE_upd_same, G2e1. reflexivity. }
  assert (G3e2 : getE st3 e2 = new_event cid (fpt bx by_) false (Some e1) subj ext).
  { unfold st3. rewrite getE_upd_other by exact N12. exact G2e2. }
  assert (G3old : forall k, mapped NQ (fq_st s) k -> getE st3 k = getE (fq_st s) k).
  { intros k Mk. unfold st3. rewrite getE_upd_other by (intros ->; contradiction). now apply G2old. }
  assert (M3 : forall k, mapped NQ st3 k -> k = e1 \/ k = e2 \/ mapped NQ (fq_st s) k).
  { intros k Mk. unfold st3 in Mk. apply mapped_upd in Mk. destruct Mk as [->|Mk]; [now left|].
    rewrite H2 in Mk. apply mapped_alloc in Mk. destruct Mk as [->|Mk]; [right; left; symmetry; exact I2|].
    rewrite H1 in Mk. apply mapped_alloc in Mk. destruct Mk as [->|Mk]; [left; symmetry; exact I1 | now right; right]. }
  (* the order of the two new events *)
  assert (P3e1 : e_point (getE st3 e1) = fpt ax ay) by (rewrite G3e1; reflexivity).
  assert (P3e2 : e_point (getE st3 e2) = fpt bx by_) by (rewrite G3e2; reflexivity).
  cbn [fq_st].
  destruct (ev_lt st3 e1 e2) eqn:C.
  - (* e2 comes first: it is the left event *)
    apply (ev_lt_lex st3 e1 e2 ax ay bx by_ P3e1 P3e2 Epe) in C.
    intros i o Mi Ho. apply mapped_upd in Mi.
    assert (Mi' : i = e1 \/ i = e2 \/ mapped NQ (fq_st s) i).
    { destruct Mi as [->|Mi]; [right; now left | now apply M3]. }
    destruct (Pos.eq_dec i e2) as [->|K2]; [|destruct (Pos.eq_dec i e1) as [->|K1]].
    + rewrite getE_upd_same, G3e2 in Ho. cbn in Ho. inversion Ho; subst o.
      exists bx, by_, ax, ay, ax, ay, bx, by_.
      rewrite getE_upd_same, getE_upd_other by (intros K; apply N12; symmetry; exact K). rewrite G3e1, G3e2. cbn.
      repeat split; auto using on_seg_l, on_seg_r. intros K. apply Epe. now apply qeqp_sym.
    + rewrite getE_upd_other in Ho by (intros K; apply N12; symmetry; exact K). rewrite G3e1 in Ho. cbn in Ho. inversion Ho; subst o.
      exists ax, ay, bx, by_, ax, ay, bx, by_.
      rewrite getE_upd_same, getE_upd_other by (intros K; apply N12; symmetry; exact K). rewrite G3e1, G3e2. cbn.
      repeat split; auto using on_seg_l, on_seg_r. discriminate.
    + destruct Mi' as [K|[K|Mi0]]; [contradiction|contradiction|].
      rewrite getE_upd_other in Ho by congruence. rewrite (G3old i Mi0) in Ho.
      destruct (L i Mi0) as (o' & Ho' & _ & Mo' & _). assert (o' = o) by congruence. subst o'.
      destruct (E i o Mi0 Ho) as (px & py & qx & qy & cx & cy & dx & dy & T1 & T2 & T3 & T4 & T5 & T6 & T7 & T8).
      exists px, py, qx, qy, cx, cy, dx, dy.
      assert (Ko : o <> e2) by (intros ->; contradiction).
      rewrite !getE_upd_other by congruence. rewrite (G3old i Mi0), (G3old o Mo'). auto 12.
  - (* e1 comes first *)
    apply (ev_lt_lex_false st3 e1 e2 ax ay bx by_ P3e1 P3e2 Epe) in C.
    intros i o Mi Ho. apply mapped_upd in Mi.
    assert (Mi' : i = e1 \/ i = e2 \/ mapped NQ (fq_st s) i).
    { destruct Mi as [->|Mi]; [now left | now apply M3]. }
    destruct (Pos.eq_dec i e1) as [->|K1]; [|destruct (Pos.eq_dec i e2) as [->|K2]].
    + rewrite getE_upd_same, G3e1 in Ho. cbn in Ho. inversion Ho; subst o.
      exists ax, ay, bx, by_, ax, ay, bx, by_.
      rewrite getE_upd_same, getE_upd_other by exact N12. rewrite G3e1, G3e2. cbn.
      repeat split; auto using on_seg_l, on_seg_r.
    + rewrite getE_upd_other in Ho by exact N12. rewrite G3e2 in Ho. cbn in Ho. inversion Ho; subst o.
      exists bx, by_, ax, ay, ax, ay, bx, by_.
      rewrite getE_upd_same, getE_upd_other by exact N12. rewrite G3e1, G3e2. cbn.
      repeat split; auto using on_seg_l, on_seg_r; try discriminate. intros K. apply Epe. now apply qeqp_sym.
    + destruct Mi' as [K|[K|Mi0]]; [contradiction|contradiction|].
      rewrite getE_upd_other in Ho by congruence. rewrite (G3old i Mi0) in Ho.
      destruct (L i Mi0) as (o' & Ho' & _ & Mo' & _). assert (o' = o) by congruence. subst o'.
      destruct (E i o Mi0 Ho) as (px & py & qx & qy & cx & cy & dx & dy & T1 & T2 & T3 & T4 & T5 & T6 & T7 & T8).
      exists px, py, qx, qy, cx, cy, dx, dy.
      assert (Ko : o <> e1) by (intros ->; contradiction).
      rewrite !getE_upd_other by congruence. rewrite (G3old i Mi0), (G3old o Mo'). auto 12.
Qed.

Lemma process_ring_from_einv2 : forall (rest : ring NQ) (s : fq NQ) subj cid ext (prev : pt NQ),
  ring_from_ok edges subj prev rest -> fqe2 s -> fqe2 (process_ring_from s subj cid ext prev rest).
Proof.
  induction rest as [|p rest IH]; intros s subj cid ext prev Hr H; cbn [process_ring_from]; [exact H|].
  destruct Hr as [He Hr]. apply IH; [exact Hr|]. now apply process_edge_einv2.
Qed.
Lemma process_ring_einv2 (s : fq NQ) (r : ring NQ) subj cid ext :
  ring_ok edges subj r -> fqe2 s -> fqe2 (process_ring s r subj cid ext).
Proof. intros Hr H. destruct r as [|p rest]; [exact H|]. now apply process_ring_from_einv2. Qed.
Lemma process_interiors_einv2 : forall (ints : list (ring NQ)) (s : fq NQ) subj cid,
  (forall r, In r ints -> ring_ok edges subj r) -> fqe2 s -> fqe2 (process_interiors s ints subj cid).
Proof.
  unfold process_interiors. induction ints as [|r ints IH]; intros s subj cid Hi H; cbn [fold_left]; [exact H|].
  apply IH; [intros r' Hr'; apply Hi; now right|].
  apply process_ring_einv2; [apply Hi; now left | exact H].
Qed.
Lemma fill_subject_einv2 : forall (ps : list (polygon NQ)) (s : fq NQ) cid,
  (forall P, In P ps -> poly_ok edges true P) -> fqe2 s -> fqe2 (fst (fill_subject s cid ps)).
Proof.
  induction ps as [|P ps IH]; intros s cid Hin H; cbn [fill_subject]; [exact H|].
  destruct (Hin P (or_introl eq_refl)) as [He Hi].
  apply IH; [intros P' HP'; apply Hin; now right|].
  apply process_interiors_einv2; [exact Hi|]. apply process_ring_einv2; [exact He | exact H].
Qed.
Lemma fill_clipping_einv2 : forall (ps : list (polygon NQ)) (s : fq NQ) cid op,
  (forall P, In P ps -> poly_ok edges false P) -> fqe2 s -> fqe2 (fst (fill_clipping s cid op ps)).
Proof.
  induction ps as [|P ps IH]; intros s cid op Hin H; cbn [fill_clipping]; [exact H|].
  destruct (Hin P (or_introl eq_refl)) as [He Hi].
  apply IH; [intros P' HP'; apply Hin; now right|].
  apply process_interiors_einv2; [exact Hi|]. apply process_ring_einv2; [exact He | exact H].
Qed.

Theorem fill_queue_einv2 (subject clipping : list (polygon NQ)) (op : operation) :
  (forall P, In P subject -> poly_ok edges true P) -> (forall P, In P clipping -> poly_ok edges false P) ->
  einv2 (f_st (fill_queue subject clipping op)).
Proof.
  intros HS HC. unfold fill_queue.
  pose proof (fill_subject_einv2 subject (mkFQ (empty_store NQ) [] (empty_bb NQ)) 0%N HS) as H1.
  destruct (fill_subject (mkFQ (empty_store NQ) [] (empty_bb NQ)) 0 subject) as [s1 cid]. cbn [fst] in H1.
  assert (F1 : fqe2 s1).
  { apply H1. split; [split; [apply empty_store_sinv | intros i []]|]. intros i o M. exfalso. apply M. reflexivity. }
  pose proof (fill_clipping_einv2 clipping (mkFQ (fq_st s1) (fq_q s1) (empty_bb NQ)) cid op HC) as H2.
  destruct (fill_clipping (mkFQ (fq_st s1) (fq_q s1) (empty_bb NQ)) cid op clipping) as [s2 c2]. cbn [fst] in H2.
  cbn [f_st]. apply H2. exact F1.
Qed.

(** C04 (first clause) / C13 (coverage), exact instance, EVERY input with finite coordinates: every
    event pair returned by [subdivide] consists of two distinct points of one input edge of its
    own operand, the left event's point lexicographically first *)
Theorem subdivide_on_edges_full cfg fuel (A B : list (polygon NQ)) op (st : store) (sorted : list eid) (n : nat) :
  (forall P, In P A -> poly_ok edges true P) -> (forall P, In P B -> poly_ok edges false P) ->
  subdivide cfg fuel (fill_queue A B op) op = Ok (st, sorted, n) ->
  forall i, In i sorted -> exists o, e_other (getE st i) = Some o /\ pair_ok2 st i o.
Proof.
  intros HA HB. unfold subdivide. destruct (fill_queue_inv NQ A B op) as [S0 Q0].
  pose proof (fill_queue_einv2 A B op HA HB) as P0.
  set (s0 := mkSweep _ _ _ _).
  assert (I0 : swinv NQ s0).
  { unfold swinv, s0; cbn [sw_st sw_q sw_sl sw_sorted]. repeat split; try apply S0; try exact Q0; intros i []. }
  assert (KL0 : keys_left (sw_st s0) (slkeys (sw_sl s0))) by (intros k []).
  pose proof (sweep_loop_inv NQ cfg fuel s0 (f_sbbox (fill_queue A B op)) (f_cbbox (fill_queue A B op))
                (minX NQ (bb_maxx (f_sbbox (fill_queue A B op))) (bb_maxx (f_cbbox (fill_queue A B op)))) op I0) as G.
  pose proof (sweep_loop_e2 cfg fuel s0 (f_sbbox (fill_queue A B op)) (f_cbbox (fill_queue A B op))
                (minX NQ (bb_maxx (f_sbbox (fill_queue A B op))) (bb_maxx (f_cbbox (fill_queue A B op)))) op I0 P0 KL0) as PP.
  destruct (sweep_loop _ _ _ _ _ _ _) as [s| site |]; cbn [obind]; try discriminate.
  intros H; inversion H; subst. destruct G as [((W & L) & Q & A' & B') _]. intros i Hi.
  assert (Mi : mapped NQ (sw_st s) i) by (apply B'; now apply in_rev).
  destruct (L i Mi) as (o & Ho & _). exists o. split; [exact Ho|]. exact (PP i o Mi Ho).
Qed.

End Full.
